package main

import (
	"context"
	"errors"
	"fmt"
	"os"
	"os/signal"
	"runtime"
	"strings"
	"sync"
	"sync/atomic"
	"syscall"
	"time"

	"go.uber.org/zap"
	"go.uber.org/zap/zapcore"

	"go.opentelemetry.io/collector/component"
	"go.opentelemetry.io/collector/component/componentstatus"
	"go.opentelemetry.io/collector/confmap"
	"go.opentelemetry.io/collector/consumer"
	"go.opentelemetry.io/collector/exporter"
	"go.opentelemetry.io/collector/extension"
	"go.opentelemetry.io/collector/otelcol"
	"go.opentelemetry.io/collector/pdata/plog"
	"go.opentelemetry.io/collector/processor"
	"go.opentelemetry.io/collector/receiver"
)

// ---------------------------------------------------------------------------------------------
// history description (the replayable input of a case)

// Action is one external event.
type Action struct {
	// Kind: watch | watcherr | sighup | sigint | sigterm | shutdown | cancel | fatal
	Kind string `json:"kind"`
	// N: shutdown -> number of Shutdown() calls (each on its own goroutine when fired at idle);
	// fatal -> number of different components reporting FatalError at the same time
	N int `json:"n,omitempty"`
	// Sync (fatal fired from inside a component callback): report on the calling goroutine (the run
	// loop's own) instead of a helper goroutine
	Sync bool `json:"sync,omitempty"`
	// Seq (kind wseq, fired from inside a component callback while the run loop is busy starting or
	// reloading): watcher notifications ("change" / "error") delivered back to back by a harness goroutine;
	// the resolver's channel has one slot, so the second send waits until the loop has drained the first
	Seq []string `json:"seq,omitempty"`
}

func (a Action) String() string {
	s := a.Kind
	if a.Kind == "wseq" {
		return "wseq(" + strings.Join(a.Seq, ",") + ")"
	}
	if a.N > 1 {
		s += fmt.Sprintf("x%d", a.N)
	}
	if a.Sync {
		s += "(sync)"
	}
	return s
}

func (a Action) isStop() bool {
	switch a.Kind {
	case "watcherr", "sigint", "sigterm", "shutdown", "cancel", "fatal":
		return true
	}
	return false
}

func (a Action) isReload() bool { return a.Kind == "watch" || a.Kind == "sighup" }

// Trigger fires actions from inside a component callback (a logical point of the run).
type Trigger struct {
	Phase   string   `json:"phase"` // start | shutdown
	Comp    string   `json:"comp"`  // component name inside the generation, e.g. recv/1, proc, exp/1, ext
	Actions []Action `json:"actions"`
}

// GenPlan is what the configuration of one generation contains.
type GenPlan struct {
	NRecv int `json:"nrecv"`
	NExp  int `json:"nexp"`
	// Fail: "" | start:<comp> | shutdown:<comp> | invalid | retrieve-error
	Fail     string    `json:"fail,omitempty"`
	Triggers []Trigger `json:"triggers,omitempty"`
}

// Round is a group of actions fired together once the run loop is idle in Running.
type Round struct {
	Actions []Action `json:"actions"`
}

func (r Round) String() string {
	p := make([]string, len(r.Actions))
	for i, a := range r.Actions {
		p[i] = a.String()
	}
	return strings.Join(p, "+")
}

// History is one case.
type History struct {
	Class       string `json:"class"`
	PreShutdown int    `json:"pre_shutdown,omitempty"` // Shutdown() calls before Run
	// Pollers > 0: that many goroutines log (Info/Warn, enabled: the service then logs at level info) through the
	// logger the collector gave the provider, all the time from the first Retrieve to the provider's shutdown
	Pollers int       `json:"pollers,omitempty"`
	Gens    []GenPlan `json:"gens"` // plan of generation 1, 2, …; later generations: default plan
	Rounds  []Round   `json:"rounds"`
	Final   Round     `json:"final"`
}

func (h *History) logLevel() string {
	if h.Pollers > 0 {
		return "info"
	}
	return "error"
}

func (h *History) plan(g int) GenPlan {
	if g >= 1 && g <= len(h.Gens) {
		return h.Gens[g-1]
	}
	return GenPlan{NRecv: 1 + g%2, NExp: 1}
}

// Canon is the canonical identity of the history.
func (h *History) Canon() string {
	var b strings.Builder
	fmt.Fprintf(&b, "pre%d", h.PreShutdown)
	if h.Pollers > 0 {
		fmt.Fprintf(&b, "|loggers%d", h.Pollers)
	}
	for i, g := range h.Gens {
		fmt.Fprintf(&b, "|g%d:%d.%d.%s", i+1, g.NRecv, g.NExp, g.Fail)
		for _, t := range g.Triggers {
			fmt.Fprintf(&b, "[%s@%s:%s]", t.Phase, t.Comp, Round{t.Actions})
		}
	}
	for _, r := range h.Rounds {
		b.WriteString("|" + r.String())
	}
	b.WriteString("|final:" + h.Final.String())
	return b.String()
}

// hangProne: on the unchanged tree every FatalError report that is not the single, final, stand-alone
// stop event fired at idle runs into the known defect C20-a (blocking send on the unbuffered async error
// channel under the status reporter's mutex).
func (h *History) hangProne() bool {
	for _, g := range h.Gens {
		for _, t := range g.Triggers {
			for _, a := range t.Actions {
				if a.Kind == "fatal" {
					return true
				}
			}
		}
	}
	for _, r := range h.Rounds {
		for _, a := range r.Actions {
			if a.Kind == "fatal" {
				return true
			}
		}
	}
	for _, a := range h.Final.Actions {
		if a.Kind == "fatal" && (a.N > 1 || len(h.Final.Actions) > 1) {
			return true
		}
	}
	return false
}

// ---------------------------------------------------------------------------------------------
// event log

type event struct {
	Seq   int64  `json:"seq"`
	Kind  string `json:"kind"`
	Gen   int    `json:"gen,omitempty"`
	Name  string `json:"name,omitempty"`
	State string `json:"state,omitempty"` // collector state sampled at the event (callbacks run on the run loop's goroutine)
	Info  string `json:"info,omitempty"`
	// provider shutdowns seen so far: tells a reload shutdown from the final one
	ProvDown int `json:"prov_down,omitempty"`
}

func (e event) String() string {
	s := fmt.Sprintf("%d %s", e.Seq, e.Kind)
	if e.Gen > 0 {
		s += fmt.Sprintf(" g%d", e.Gen)
	}
	if e.Name != "" {
		s += " " + e.Name
	}
	if e.State != "" {
		s += " [" + e.State + "]"
	}
	if e.Info != "" {
		s += " (" + e.Info + ")"
	}
	return s
}

// ---------------------------------------------------------------------------------------------
// own signal registration: a late signal never kills the process, and it tells when a signal sent to
// ourselves has been dispatched by the runtime

var (
	sigOnce  sync.Once
	sigCount [65]atomic.Int64
	sigDummy = make(chan os.Signal, 1)
)

func installSignals() {
	sigOnce.Do(func() {
		keep := make(chan os.Signal, 256)
		signal.Notify(keep, syscall.SIGHUP, syscall.SIGINT, syscall.SIGTERM)
		go func() {
			for s := range keep {
				if n, ok := s.(syscall.Signal); ok && int(n) < len(sigCount) {
					sigCount[n].Add(1)
				}
			}
		}()
	})
}

// ---------------------------------------------------------------------------------------------
// configuration provider

type prov struct {
	r  *run
	mu sync.Mutex
	// generation = number of Retrieve calls
	gen                   int
	w                     confmap.WatcherFunc
	open                  bool // the current Retrieved has not been closed
	notified              bool // the watcher was called for the current Retrieved
	outstanding           bool // a notification may still sit in the resolver's channel (cleared when the loop is seen idle)
	shutdowns             int
	closes                int
	retrieveAfterShutdown int

	// the logger the collector hands to providers (its swappable core: the run loop replaces the core on every
	// start and reload) and the goroutines that log through it all the time
	logger    *zap.Logger
	pollOn    bool
	pollStop  atomic.Bool
	pollWG    sync.WaitGroup
	pollLines atomic.Int64
}

// startPollers launches n goroutines that log at an enabled level, with fields, in a tight loop through the
// provider's logger. They run from the first Retrieve (before the collector installs the service's core) until
// the provider is shut down or the case ends.
func (p *prov) startPollers(n int) {
	if p.logger == nil || n <= 0 {
		return
	}
	for i := 0; i < n; i++ {
		p.pollWG.Add(1)
		go func(id int) {
			defer p.pollWG.Done()
			lg := p.logger
			tight := p.r.h.Class == "many-reloads" // full pressure where the reloads are dense, paced bursts elsewhere
			for k := 0; !p.pollStop.Load() && !p.r.returned(); k++ {
				switch k % 3 {
				case 0:
					lg.Info("harness provider poll", zap.Int("poller", id), zap.Int("n", k), zap.String("uri", "vv:x"))
				case 1:
					lg.Warn("harness provider poll found nothing new", zap.Int("poller", id), zap.Int("n", k))
				default:
					if ce := lg.Check(zapcore.InfoLevel, "harness provider poll (checked)"); ce != nil {
						ce.Write(zap.Int("poller", id))
					}
				}
				p.pollLines.Add(1)
				if tight {
					runtime.Gosched()
				} else {
					time.Sleep(20 * time.Microsecond) // pacing only (CPU budget); no verdict depends on it
				}
			}
		}(i)
	}
}

func (p *prov) stopPollers(wait bool) {
	p.pollStop.Store(true)
	if wait {
		p.pollWG.Wait()
	}
}

func (p *prov) logf(msg string, fields ...zap.Field) {
	if p.logger != nil && p.r.h.Pollers > 0 {
		p.logger.Info(msg, fields...)
	}
}

// conv is a converter that only logs through the logger the collector gave it.
type conv struct {
	r      *run
	logger *zap.Logger
}

func (c conv) Convert(context.Context, *confmap.Conf) error {
	if c.logger != nil && c.r.h.Pollers > 0 {
		c.logger.Info("harness converter ran", zap.Int("generation", c.r.prov.generation()))
	}
	return nil
}

func (p *prov) Scheme() string { return "vv" }

func (p *prov) Retrieve(_ context.Context, _ string, w confmap.WatcherFunc) (*confmap.Retrieved, error) {
	p.mu.Lock()
	p.gen++
	g := p.gen
	p.w = w
	p.open = true
	p.notified = false
	if p.shutdowns > 0 {
		p.retrieveAfterShutdown++
	}
	p.mu.Unlock()
	plan := p.r.h.plan(g)
	p.r.log(event{Kind: "retrieve", Gen: g, Info: plan.Fail})
	p.mu.Lock()
	first := !p.pollOn
	p.pollOn = true
	p.mu.Unlock()
	if first {
		p.startPollers(p.r.h.Pollers)
	}
	p.logf("harness provider retrieves", zap.Int("generation", g))
	if plan.Fail == "retrieve-error" {
		p.mu.Lock()
		p.open = false
		p.mu.Unlock()
		return nil, fmt.Errorf("injected retrieve error gen %d", g)
	}
	return confmap.NewRetrievedFromYAML([]byte(yamlFor(g, plan, p.r.h.logLevel())), confmap.WithRetrievedClose(func(context.Context) error {
		p.mu.Lock()
		p.closes++
		if g == p.gen {
			p.open = false
		}
		p.mu.Unlock()
		p.r.log(event{Kind: "close-retrieved", Gen: g})
		return nil
	}))
}

func (p *prov) Shutdown(context.Context) error {
	p.mu.Lock()
	p.shutdowns++
	p.open = false
	p.mu.Unlock()
	p.r.log(event{Kind: "provider-shutdown"})
	p.stopPollers(false)
	return nil
}

func (p *prov) downs() int {
	p.mu.Lock()
	defer p.mu.Unlock()
	return p.shutdowns
}

func (p *prov) generation() int {
	p.mu.Lock()
	defer p.mu.Unlock()
	return p.gen
}

// fire notifies the collector like a well-behaved provider: at most once per Retrieved, never after the
// Retrieved was closed or the provider shut down, never while an earlier notification may still be
// unconsumed, and — when called from a goroutine that is not the run loop's — never after a stop event
// was issued (the resolver closes its channel on shutdown; a provider that notifies during shutdown is
// outside the contract and outside this check).
func (p *prov) fire(err error, onLoopGoroutine bool) bool {
	p.mu.Lock()
	defer p.mu.Unlock()
	if p.w == nil || !p.open || p.notified || p.outstanding || p.shutdowns > 0 || (!onLoopGoroutine && p.r.stopIssued.Load()) {
		return false
	}
	p.notified = true
	p.outstanding = true
	p.w(&confmap.ChangeEvent{Error: err}) // capacity-1 channel, known empty: does not block
	p.logf("harness provider notified the collector", zap.Bool("error", err != nil))
	return true
}

// seqStart hands out the watcher function for a back-to-back sequence of notifications. Allowed only while
// the provider is in use (not shut down), no stop event has been issued and — by construction of the
// histories that use it — the resolver's channel is empty (the notification that caused the current reload
// has been consumed, nothing else was fired).
func (p *prov) seqStart() confmap.WatcherFunc {
	p.mu.Lock()
	defer p.mu.Unlock()
	if p.w == nil || p.shutdowns > 0 || p.r.stopIssued.Load() {
		return nil
	}
	p.notified = true
	p.outstanding = true
	return p.w
}

func (p *prov) sawIdle() {
	p.mu.Lock()
	p.outstanding = false
	p.mu.Unlock()
}

func yamlFor(g int, pl GenPlan, level string) string {
	failS, failD := "", ""
	if strings.HasPrefix(pl.Fail, "start:") {
		failS = strings.TrimPrefix(pl.Fail, "start:")
	}
	if strings.HasPrefix(pl.Fail, "shutdown:") {
		failD = strings.TrimPrefix(pl.Fail, "shutdown:")
	}
	c := func(name string) string {
		return fmt.Sprintf("{gen: %d, fail_start: %v, fail_shutdown: %v}", g, name == failS, name == failD)
	}
	var b strings.Builder
	var recvs, exps []string
	b.WriteString("receivers:\n")
	for i := 1; i <= pl.NRecv; i++ {
		fmt.Fprintf(&b, "  k/%d: %s\n", i, c(fmt.Sprintf("recv/%d", i)))
		recvs = append(recvs, fmt.Sprintf("k/%d", i))
	}
	fmt.Fprintf(&b, "processors:\n  k: %s\n", c("proc"))
	b.WriteString("exporters:\n")
	for i := 1; i <= pl.NExp; i++ {
		fmt.Fprintf(&b, "  k/%d: %s\n", i, c(fmt.Sprintf("exp/%d", i)))
		exps = append(exps, fmt.Sprintf("k/%d", i))
	}
	if pl.Fail == "invalid" {
		exps = append(exps, "k/undefined")
	}
	fmt.Fprintf(&b, "extensions:\n  k: %s\n", c("ext"))
	b.WriteString("service:\n  extensions: [k]\n")
	b.WriteString("  telemetry: {metrics: {level: none}, logs: {level: " + level + ", sampling: {enabled: false}, output_paths: [/dev/null], error_output_paths: [/dev/null]}}\n")
	fmt.Fprintf(&b, "  pipelines:\n    logs: {receivers: [%s], processors: [k], exporters: [%s]}\n", strings.Join(recvs, ", "), strings.Join(exps, ", "))
	return b.String()
}

// ---------------------------------------------------------------------------------------------
// components

type ccfg struct {
	Gen          int  `mapstructure:"gen"`
	FailStart    bool `mapstructure:"fail_start"`
	FailShutdown bool `mapstructure:"fail_shutdown"`
}

type comp struct {
	r    *run
	gen  int
	name string
	cfg  *ccfg

	mu      sync.Mutex
	host    component.Host
	started bool
	stopped bool
}

func (c *comp) Start(_ context.Context, host component.Host) error {
	c.mu.Lock()
	c.host = host
	c.started = true
	c.mu.Unlock()
	c.r.log(event{Kind: "start-call", Gen: c.gen, Name: c.name})
	c.r.addLive(c)
	c.r.trigger("start", c)
	var err error
	info := ""
	if c.cfg.FailStart {
		err = fmt.Errorf("injected start failure gen %d %s", c.gen, c.name)
		info = "error"
	}
	c.r.log(event{Kind: "start-return", Gen: c.gen, Name: c.name, Info: info})
	return err
}

func (c *comp) Shutdown(context.Context) error {
	c.r.log(event{Kind: "shutdown-call", Gen: c.gen, Name: c.name})
	c.r.trigger("shutdown", c)
	c.mu.Lock()
	c.stopped = true
	c.mu.Unlock()
	var err error
	info := ""
	if c.cfg.FailShutdown {
		err = fmt.Errorf("injected shutdown failure gen %d %s", c.gen, c.name)
		info = "error"
	}
	c.r.log(event{Kind: "shutdown-return", Gen: c.gen, Name: c.name, Info: info})
	return err
}

func (c *comp) live() (component.Host, bool) {
	c.mu.Lock()
	defer c.mu.Unlock()
	return c.host, c.started && !c.stopped
}

// extComp is the extension of a generation; it also watches component status.
type extComp struct{ *comp }

func (x extComp) ComponentStatusChanged(src *componentstatus.InstanceID, ev *componentstatus.Event) {
	if ev.Status() != componentstatus.StatusFatalError {
		return
	}
	x.r.fatalAccepted.Add(1)
	x.r.mustReturn.Store(true)
	x.r.log(event{Kind: "fatal-event-delivered", Gen: x.gen, Name: src.ComponentID().String()})
}

func (c *comp) Capabilities() consumer.Capabilities          { return consumer.Capabilities{} }
func (c *comp) ConsumeLogs(context.Context, plog.Logs) error { return nil }

func (r *run) newComp(kind string, id component.ID, cf component.Config) *comp {
	cc := cf.(*ccfg)
	name := kind
	if id.Name() != "" {
		name += "/" + id.Name()
	}
	c := &comp{r: r, gen: cc.Gen, name: name, cfg: cc}
	r.log(event{Kind: "create", Gen: cc.Gen, Name: name})
	return c
}

func (r *run) factories() (otelcol.Factories, error) {
	t := component.MustNewType("k")
	mk := func() component.Config { return &ccfg{} }
	st := component.StabilityLevelStable
	f := otelcol.Factories{}
	f.Receivers = map[component.Type]receiver.Factory{t: receiver.NewFactory(t, mk, receiver.WithLogs(func(_ context.Context, s receiver.Settings, c component.Config, _ consumer.Logs) (receiver.Logs, error) {
		return r.newComp("recv", s.ID, c), nil
	}, st))}
	f.Processors = map[component.Type]processor.Factory{t: processor.NewFactory(t, mk, processor.WithLogs(func(_ context.Context, s processor.Settings, c component.Config, _ consumer.Logs) (processor.Logs, error) {
		return r.newComp("proc", s.ID, c), nil
	}, st))}
	f.Exporters = map[component.Type]exporter.Factory{t: exporter.NewFactory(t, mk, exporter.WithLogs(func(_ context.Context, s exporter.Settings, c component.Config) (exporter.Logs, error) {
		return r.newComp("exp", s.ID, c), nil
	}, st))}
	f.Extensions = map[component.Type]extension.Factory{t: extension.NewFactory(t, mk, func(_ context.Context, s extension.Settings, c component.Config) (extension.Extension, error) {
		return extComp{r.newComp("ext", s.ID, c)}, nil
	}, st)}
	return f, nil
}

var errNoLive = errors.New("no live component to report through")
