// C20 — collector run loop: one live service at a time, orderly reload, ends Closed.
//
// Monitor: otelcol.NewCollector with generation-tagged test components and a harness confmap.Provider.
// Generated event histories (config change, watcher error, real SIGHUP/SIGINT/SIGTERM sent to the own
// pid, Shutdown() from several goroutines, context cancel, asynchronous FatalError status, components
// failing in start/shutdown, invalid configuration) are fired at logical points: with the run loop idle
// in its select (seen in a goroutine dump), or from inside Start/Shutdown of a chosen component of a
// chosen generation. Oracles work on the global event log (create/start/shutdown per generation,
// provider calls), on sampled states and on the result of Run; hangs are judged by c.Guard plus the
// blocked frames.
package main

import (
	"fmt"
	"math/rand"
	"regexp"
	"runtime"
	"sort"
	"strings"
	"time"

	"go.opentelemetry.io/collector/otelcol"
	"go.opentelemetry.io/collector/verifharness/lib/driver"
)

// ---------------------------------------------------------------------------------------------
// history generator

var compNames = func(pl GenPlan) []string {
	out := []string{"ext", "proc"}
	for i := 1; i <= pl.NRecv; i++ {
		out = append(out, fmt.Sprintf("recv/%d", i))
	}
	for i := 1; i <= pl.NExp; i++ {
		out = append(out, fmt.Sprintf("exp/%d", i))
	}
	return out
}

func genAction(rng *rand.Rand, pool []string, fatalOK bool) Action {
	for {
		k := pool[rng.Intn(len(pool))]
		switch k {
		case "shutdown":
			return Action{Kind: k, N: 1 + rng.Intn(4)}
		case "fatal":
			if !fatalOK {
				continue
			}
			return Action{Kind: k, N: 1 + rng.Intn(2), Sync: rng.Intn(2) == 0}
		}
		return Action{Kind: k}
	}
}

var stopPool = []string{"shutdown", "shutdown", "sigterm", "sigint", "cancel", "watcherr", "fatal"}
var triggerPool = []string{"shutdown", "sigterm", "sigint", "sighup", "cancel", "watch", "watcherr", "fatal"}

func genPlan(rng *rand.Rand, g int, failOK bool) GenPlan {
	pl := GenPlan{NRecv: 1 + rng.Intn(3), NExp: 1 + rng.Intn(2)}
	names := compNames(pl)
	if failOK {
		switch x := rng.Intn(100); {
		case x < 7:
			pl.Fail = "start:" + names[rng.Intn(len(names))]
		case x < 14:
			pl.Fail = "shutdown:" + names[rng.Intn(len(names))]
		case x < 17:
			pl.Fail = "invalid"
		case x < 20:
			pl.Fail = "retrieve-error"
		}
	}
	nt := 0
	switch x := rng.Intn(100); {
	case x < 25:
		nt = 1
	case x < 32:
		nt = 2
	}
	for i := 0; i < nt; i++ {
		t := Trigger{Phase: []string{"start", "start", "shutdown"}[rng.Intn(3)], Comp: names[rng.Intn(len(names))]}
		t.Actions = append(t.Actions, genAction(rng, triggerPool, rng.Intn(6) == 0))
		if rng.Intn(5) == 0 {
			t.Actions = append(t.Actions, genAction(rng, triggerPool, false))
		}
		pl.Triggers = append(pl.Triggers, t)
	}
	return pl
}

func genHistory(rng *rand.Rand) *History {
	h := &History{Class: "random"}
	if rng.Intn(25) == 0 {
		h.PreShutdown = 1 + rng.Intn(2)
	}
	nRounds := []int{0, 0, 1, 1, 1, 2, 2, 3, 4, 6}[rng.Intn(10)]
	nGens := 1 + nRounds + rng.Intn(2)
	for g := 1; g <= nGens; g++ {
		h.Gens = append(h.Gens, genPlan(rng, g, g > 1 || rng.Intn(4) == 0))
	}
	for i := 0; i < nRounds; i++ {
		var rd Round
		switch x := rng.Intn(100); {
		case x < 30:
			rd.Actions = []Action{{Kind: "watch"}}
		case x < 55:
			rd.Actions = []Action{{Kind: "sighup"}}
		case x < 63:
			rd.Actions = []Action{{Kind: "watch"}, {Kind: "sighup"}}
		case x < 68:
			rd.Actions = []Action{{Kind: "sighup"}, {Kind: "sighup"}}
		default:
			// a reload together with a stop event
			rd.Actions = []Action{{Kind: []string{"watch", "sighup"}[rng.Intn(2)]}, genAction(rng, stopPool[:6], false)}
			if rng.Intn(8) == 0 {
				rd.Actions[1] = Action{Kind: "fatal", N: 1 + rng.Intn(2)}
			}
			if rd.Actions[0].Kind == "watch" && rd.Actions[1].Kind == "watcherr" {
				rd.Actions[1] = Action{Kind: "shutdown", N: 2}
			}
		}
		h.Rounds = append(h.Rounds, rd)
	}
	// final stop: one event, or several different ones together
	h.Final.Actions = []Action{genAction(rng, stopPool, true)}
	if h.Final.Actions[0].Kind == "fatal" {
		h.Final.Actions[0].Sync = false
		if rng.Intn(3) != 0 {
			h.Final.Actions[0].N = 1
		}
	}
	if rng.Intn(4) == 0 {
		seen := map[string]bool{h.Final.Actions[0].Kind: true}
		for n := 1 + rng.Intn(2); n > 0; n-- {
			a := genAction(rng, stopPool[:6], false)
			if !seen[a.Kind] {
				seen[a.Kind] = true
				h.Final.Actions = append(h.Final.Actions, a)
			}
		}
	}
	return h
}

var notifySeqs = [][]string{
	{"change", "change"}, {"change", "error"}, {"error", "change"}, {"error", "error"},
	// triples: nothing may be started after a watch error could have been consumed (the resolver closes its
	// channel on shutdown), and the third send starts only when the loop has drained the first: error last
	{"change", "change", "change"}, {"change", "change", "error"},
}

// genDoubleNotify: two or three watcher notifications back to back while the run loop is NOT in its select:
// fired (by a harness goroutine) from inside Start of a component of the generation being brought up, or
// from inside Shutdown of a component of the generation being torn down by a reload. No other triggers and
// only single-event reload rounds, so that the resolver's one-slot channel is empty at the firing point.
func genDoubleNotify(rng *rand.Rand, k int64, race bool) *History {
	h := &History{Class: "double-notify"}
	seq := notifySeqs[k%int64(len(notifySeqs))]
	if race && seq[0] == "error" {
		// A notification that is still in flight (its sender parked in the one-slot channel) when the watch error
		// before it makes the collector shut down is, for the race detector, a send concurrent with the
		// resolver's close(watcher): a provider that goes on notifying after it reported a watch error is
		// outside the contract. The error-first pairs therefore run in the plain build only.
		seq = notifySeqs[(k/2)%2]
	}
	point := (k / int64(len(notifySeqs))) % 5
	for g := 1; g <= 4; g++ {
		h.Gens = append(h.Gens, GenPlan{NRecv: 1 + rng.Intn(3), NExp: 1 + rng.Intn(2)})
	}
	gen, phase := 1, "start"
	switch point {
	case 1:
		gen = 2
	case 2:
		phase = "shutdown" // generation 1 torn down by the first reload
	case 3:
		gen, phase = 2, "shutdown"
	case 4:
		gen = 3
	}
	names := compNames(h.Gens[gen-1])
	h.Gens[gen-1].Triggers = []Trigger{{Phase: phase, Comp: names[rng.Intn(len(names))], Actions: []Action{{Kind: "wseq", Seq: seq}}}}
	for i := 0; i < 3; i++ {
		h.Rounds = append(h.Rounds, Round{[]Action{{Kind: []string{"watch", "sighup"}[rng.Intn(2)]}}})
	}
	h.Final.Actions = []Action{genAction(rng, stopPool[:6], false)}
	return h
}

// genManyReloads: 20..50 plain change notifications in a row, each fired with the loop idle and waited for
// logically, while 2..8 goroutines log through the provider's logger: many swaps of the logger core.
func genManyReloads(rng *rand.Rand) *History {
	h := &History{Class: "many-reloads", Pollers: 2 + rng.Intn(7)}
	h.Gens = []GenPlan{{NRecv: 1, NExp: 1}}
	for n := 20 + rng.Intn(31); n > 0; n-- {
		k := "watch"
		if rng.Intn(6) == 0 {
			k = "sighup"
		}
		h.Rounds = append(h.Rounds, Round{[]Action{{Kind: k}}})
	}
	h.Final.Actions = []Action{genAction(rng, stopPool[:6], false)}
	return h
}

// directed reproducers of C20-a
func directed(i int) *History {
	base := []GenPlan{{NRecv: 2, NExp: 1}}
	switch i {
	case 0:
		return &History{Class: "directed:two-concurrent-fatal", Gens: base, Final: Round{[]Action{{Kind: "fatal", N: 2}}}}
	case 1:
		g := GenPlan{NRecv: 2, NExp: 1, Triggers: []Trigger{{Phase: "shutdown", Comp: "recv/1", Actions: []Action{{Kind: "fatal", N: 1}}}}}
		return &History{Class: "directed:fatal-during-shutdown", Gens: []GenPlan{g}, Final: Round{[]Action{{Kind: "shutdown", N: 1}}}}
	default:
		g := GenPlan{NRecv: 2, NExp: 1, Triggers: []Trigger{{Phase: "start", Comp: "recv/1", Actions: []Action{{Kind: "fatal", N: 1, Sync: true}}}}}
		return &History{Class: "directed:fatal-inside-start", Gens: []GenPlan{g}, Final: Round{[]Action{{Kind: "shutdown", N: 1}}}}
	}
}

// ---------------------------------------------------------------------------------------------
// oracle over the event log

type witness struct {
	History *History `json:"history"`
	RunErr  string   `json:"run_error"`
	State   string   `json:"final_state"`
	States  []string `json:"sampled_states"`
	Events  []string `json:"events"`
	Dump    string   `json:"blocked_goroutines,omitempty"`
}

func (r *run) witness(dump string) witness {
	r.mu.Lock()
	defer r.mu.Unlock()
	w := witness{History: r.h, State: r.col.GetState().String(), Dump: dump}
	if r.returned() {
		w.RunErr = fmt.Sprint(r.runErr)
	} else {
		w.RunErr = "(Run has not returned)"
	}
	for _, s := range r.samples {
		w.States = append(w.States, s.state.String())
	}
	evs := r.evs
	if len(evs) > 160 {
		evs = evs[len(evs)-160:]
	}
	for _, e := range evs {
		w.Events = append(w.Events, e.String())
	}
	return w
}

// check applies the oracles after Run returned.
func (r *run) check() {
	r.mu.Lock()
	evs := append([]event{}, r.evs...)
	samples := append([]sample{}, r.samples...)
	r.mu.Unlock()
	finalState := r.col.GetState()

	type cstat struct {
		gen                                            int
		name                                           string
		create, startCall, startRet, stopCall, stopRet int
		startOK                                        bool
		lastStopRet                                    int64
		firstCreate                                    int64
	}
	comps := map[string]*cstat{}
	get := func(e event) *cstat {
		k := fmt.Sprintf("g%d %s", e.Gen, e.Name)
		c := comps[k]
		if c == nil {
			c = &cstat{gen: e.Gen, name: e.Name}
			comps[k] = c
		}
		return c
	}
	var startFailed, stopFailedReload, stopFailedFinal, badConfig bool
	retrieves, provDowns, retrieveAfterDown := 0, 0, 0
	firstCreateOfGen := map[int]int64{}
	provDownSeq := int64(0)
	for _, e := range evs {
		switch e.Kind {
		case "retrieve":
			retrieves++
			if provDowns > 0 {
				retrieveAfterDown++
			}
			if e.Info == "invalid" || e.Info == "retrieve-error" {
				badConfig = true
			}
		case "provider-shutdown":
			provDowns++
			provDownSeq = e.Seq
		case "create":
			c := get(e)
			c.create++
			if c.firstCreate == 0 {
				c.firstCreate = e.Seq
			}
			if _, ok := firstCreateOfGen[e.Gen]; !ok {
				firstCreateOfGen[e.Gen] = e.Seq
			}
		case "start-call":
			get(e).startCall++
		case "start-return":
			c := get(e)
			c.startRet++
			if e.Info == "error" {
				startFailed = true
			} else {
				c.startOK = true
			}
		case "shutdown-call":
			get(e).stopCall++
		case "shutdown-return":
			c := get(e)
			c.stopRet++
			c.lastStopRet = e.Seq
			if e.Info == "error" {
				if provDowns > 0 {
					stopFailedFinal = true
				} else {
					stopFailedReload = true
				}
			}
		}
	}
	_ = provDownSeq
	r.c.Observe("generations_started", int64(len(firstCreateOfGen)))
	r.c.Observe("component_lifecycles", int64(len(comps)))

	// (1) exactly once per generation
	for _, c := range comps {
		if c.create != 1 || c.startCall > 1 || c.stopCall > 1 || (c.startOK && c.stopCall != 1) || c.stopRet != c.stopCall || c.startRet != c.startCall {
			r.problem("exactly-once", fmt.Sprintf("generation %d component %s: created %d, Start called %d (returned %d), Shutdown called %d (returned %d) by the time Run returned", c.gen, c.name, c.create, c.startCall, c.startRet, c.stopCall, c.stopRet),
				"create", fmt.Sprint(c.create), "start", fmt.Sprint(c.startCall), "shutdown", fmt.Sprint(c.stopCall), "started_ok", fmt.Sprint(c.startOK))
		}
	}
	// (2) no overlap: everything of generation g that was started is shut down before generation g' > g creates anything
	for g2, seq := range firstCreateOfGen {
		for _, c := range comps {
			if c.gen >= g2 || c.startCall == 0 {
				continue
			}
			if c.stopRet == 0 || c.lastStopRet > seq {
				r.problem("overlap", fmt.Sprintf("generation %d creates its first component (event %d) while %s of generation %d, started earlier, has not finished Shutdown (event %d; 0 = never)", g2, seq, c.name, c.gen, c.lastStopRet),
					"kind", "create-before-old-shutdown")
			}
		}
	}
	// events of an older generation after a newer one appeared
	maxGenSeen := 0
	for _, e := range evs {
		if e.Gen == 0 {
			continue
		}
		switch e.Kind {
		case "create", "start-call":
			if e.Gen < maxGenSeen {
				r.problem("overlap", fmt.Sprintf("%s of generation %d (event %d) after generation %d had appeared", e.Kind, e.Gen, e.Seq, maxGenSeen), "kind", "old-generation-"+e.Kind)
			}
			if e.Gen > maxGenSeen {
				maxGenSeen = e.Gen
			}
		}
	}
	// (2b) back-to-back notifications that begin with a configuration change: the configuration is retrieved
	// again afterwards (how many reloads several pending changes cause is not prescribed: counted, not judged)
	for i, e := range evs {
		if e.Kind != "wseq" || !strings.Contains(e.Info, "wseq(change") || startFailed || badConfig || stopFailedReload {
			continue
		}
		again := 0
		for _, x := range evs[i+1:] {
			if x.Kind == "retrieve" {
				again++
			}
		}
		r.c.Observe("reloads_after_back_to_back_notifications", int64(again))
		if again == 0 {
			r.problem("reload-ignored", fmt.Sprintf("configuration-change notifications were delivered from inside %s of generation %d (event %d) and the configuration was never retrieved again", e.Name, e.Gen, e.Seq), "round", "wseq")
		}
	}
	// (3) provider
	if provDowns > 1 {
		r.problem("provider", fmt.Sprintf("configuration provider shut down %d times", provDowns), "shutdowns", "many")
	}
	if retrieveAfterDown > 0 {
		r.problem("provider", "Retrieve called after the provider was shut down", "shutdowns", "retrieve-after-shutdown")
	}
	bringUpFailure := startFailed || badConfig
	stopPath := !bringUpFailure && !stopFailedReload
	// (4) states
	if len(samples) == 0 || samples[0].state != otelcol.StateStarting {
		r.problem("state", "the first sampled state is not Starting", "rule", "first-not-starting")
	}
	closedAt := -1
	for i, s := range samples {
		if s.state == otelcol.StateClosed && closedAt < 0 {
			closedAt = i
		}
		if closedAt >= 0 && s.state != otelcol.StateClosed {
			r.problem("state", fmt.Sprintf("state %s sampled after Closed", s.state), "rule", "left-closed")
		}
	}
	if cs := r.closedSeen.Load(); cs > 0 {
		for _, e := range evs {
			if e.Seq > cs+1 && (e.Kind == "create" || e.Kind == "start-call" || e.Kind == "retrieve") {
				r.problem("state", fmt.Sprintf("%s (event %d) after the state Closed had been observed (event %d)", e.Kind, e.Seq, cs), "rule", "activity-after-closed")
			}
		}
	}
	for _, e := range evs {
		if (e.Kind == "create" || e.Kind == "start-call") && e.State == otelcol.StateClosed.String() {
			r.problem("state", fmt.Sprintf("%s of %s g%d while the state is Closed", e.Kind, e.Name, e.Gen), "rule", "activity-in-closed")
		}
	}
	if stopPath {
		if finalState != otelcol.StateClosed {
			r.problem("state", fmt.Sprintf("Run returned (%v) after a stop event, final state is %s, not Closed", r.runErr, finalState), "rule", "final-not-closed", "final", finalState.String(), "stop", r.stopKinds())
		}
		if provDowns != 1 {
			r.problem("provider", fmt.Sprintf("Run returned (%v) after a stop event, configuration provider shut down %d times", r.runErr, provDowns), "shutdowns", fmt.Sprint(provDowns))
		}
		if r.runErr != nil && !stopFailedFinal {
			r.problem("run-error", fmt.Sprintf("no component failed and the configuration was valid, yet Run returned %v", r.runErr), "class", "unexpected-error")
		}
	}
	// (5) bring-up failure => the error comes back
	if bringUpFailure {
		r.c.Observe("runs_ended_by_bringup_failure", 1)
		if r.runErr == nil {
			r.problem("start-failure", "a configuration could not be brought up (component Start failed / invalid configuration / retrieve error), yet Run returned nil", "class", "error-lost")
		} else if startFailed && !strings.Contains(r.runErr.Error(), "injected start failure") {
			r.problem("start-failure", fmt.Sprintf("a component failed in Start; Run returned an error that does not carry it: %v", r.runErr), "class", "other-error")
		}
	}
	if stopFailedReload {
		r.c.Observe("runs_ended_by_failed_retiring_shutdown", 1)
	}
	if stopFailedFinal {
		r.c.Observe("runs_with_final_shutdown_error", 1)
		if r.runErr != nil {
			r.c.Observe("final_shutdown_error_returned_by_run", 1)
		}
	}
	if stopPath {
		r.c.Observe("runs_ended_on_a_stop_path", 1)
	}
}

// ---------------------------------------------------------------------------------------------
// case runner

var leakedGoroutines = map[string]bool{} // goroutine ids parked by earlier stuck cases of this child

var gidRe = regexp.MustCompile(`^goroutine (\d+) \[`)

func filterDump(dump string) (kept string, ids []string) {
	var b strings.Builder
	for _, g := range strings.Split(dump, "\n\n") {
		m := gidRe.FindStringSubmatch(g)
		if m != nil {
			if leakedGoroutines[m[1]] {
				continue
			}
			ids = append(ids, m[1])
		}
		b.WriteString(g)
		b.WriteString("\n\n")
	}
	return b.String(), ids
}

const (
	frameSend   = "service/internal/graph.(*Host).NotifyComponentStatusChange [chan send]"
	frameLock   = "service/internal/status.(*reporter).ReportStatus [sync.Mutex.Lock]"
	frameLockOK = "service/internal/status.(*reporter).ReportOKIfStarting [sync.Mutex.Lock]"
)

var minutesRe = regexp.MustCompile(`, \d+ minutes`)

// blockedFrames: per goroutine of a dump the innermost repository (non-harness) function with the wait
// reason, e.g. "service/internal/graph.(*Host).NotifyComponentStatusChange [chan send]"; sorted, distinct.
// (driver.BlockedRepoFrames cuts method names of pointer receivers at the first parenthesis.)
func blockedFrames(dump string) []string { return blockedFramesOpt(dump, false) }

func blockedFramesOpt(dump string, withRunning bool) []string {
	set := map[string]bool{}
	for _, g := range strings.Split(dump, "\n\n") {
		lines := strings.Split(g, "\n")
		if len(lines) == 0 || !strings.HasPrefix(lines[0], "goroutine ") {
			continue
		}
		reason := ""
		if i := strings.Index(lines[0], "["); i >= 0 {
			reason = minutesRe.ReplaceAllString(strings.TrimSuffix(lines[0][i:], ":"), "")
		}
		if !withRunning && (strings.HasPrefix(reason, "[running") || strings.HasPrefix(reason, "[runnable")) {
			continue
		}
		for _, l := range lines[1:] {
			if strings.HasPrefix(l, "\t") || strings.HasPrefix(l, " ") {
				continue
			}
			if strings.HasPrefix(l, "created by") {
				break
			}
			if !strings.HasPrefix(l, "go.opentelemetry.io/collector/") || strings.Contains(l, "/verifharness/") {
				continue
			}
			fn := l
			if i := strings.LastIndex(fn, "("); i > 0 {
				fn = fn[:i]
			}
			fn = strings.TrimPrefix(fn, "go.opentelemetry.io/collector/")
			set[fn+" "+reason] = true
			break
		}
	}
	out := make([]string, 0, len(set))
	for k := range set {
		out = append(out, k)
	}
	sort.Strings(out)
	return out
}

// runHistory executes one history under the watchdog and evaluates it. It returns true when the case hung.
func runHistory(c *driver.Ctx, h *History, limit time.Duration) (hung, c20a bool) {
	c.Eval()
	r, err := newRun(c, h)
	if err != nil {
		c.Inconclusive("NewCollector failed: " + err.Error())
		return false, false
	}
	t0 := time.Now()
	stuck := c.Guard(limit, r.progress, r.execute)
	c.Observe("ms_spent_in_class_"+strings.SplitN(h.Class, ":", 2)[0], time.Since(t0).Milliseconds())
	r.prov.stopPollers(stuck == nil) // never leak a logging goroutine into the next case (a deadlocked one cannot be joined)
	c.Observe("lines_logged_through_the_provider_logger", r.prov.pollLines.Load())
	canon := h.Canon()
	if stuck != nil {
		steps1 := r.steps.Load() // the watchdog saw no progress up to its dump; nothing may move from here on either
		r.abandon.Store(true)
		if len(stuck.RepoFrames) == 1 && stuck.RepoFrames[0] == "panic" {
			c.Violation("harness-panic", "panic while driving a history: "+firstLine(stuck.Dump), r.witness(stuck.Dump), "site", driver.PanicSite(stuck.Dump))
			return false, false
		}
		dump, ids := filterDump(stuck.Dump)
		frames := blockedFrames(dump)
		has := func(f string) bool {
			for _, x := range frames {
				if x == f {
					return true
				}
			}
			return false
		}
		state := r.col.GetState().String()
		var keep []string
		loopHead := fmt.Sprintf("goroutine %d [", r.goid.Load())
		for _, g := range strings.Split(dump, "\n\n") {
			if strings.HasPrefix(g, loopHead) {
				keep = append(keep, "(the goroutine executing Run)\n"+g)
			}
		}
		for _, g := range strings.Split(dump, "\n\n") {
			if strings.HasPrefix(g, loopHead) || strings.Contains(g, ", ") && strings.Contains(g, " minutes]") {
				continue
			}
			if strings.Contains(g, "go.opentelemetry.io/collector/") && !strings.Contains(g, "runtime.Stack") && len(keep) < 7 {
				l := strings.Split(g, "\n")
				if len(l) > 12 {
					l = l[:12]
				}
				keep = append(keep, strings.Join(l, "\n"))
			}
		}
		w := r.witness(strings.Join(keep, "\n\n"))
		// the verdict needs a stable structure, not just elapsed time: the goroutine that executes Run must sit
		// in the same blocking frame in the watchdog's dump and in a second dump taken later
		loop1 := goroutineFrame(dump, r.goid.Load())
		time.Sleep(limit / 16)
		dump2, _ := filterDump(allStacks())
		loop2 := goroutineFrame(dump2, r.goid.Load())
		for _, id := range ids {
			leakedGoroutines[id] = true // whatever is parked now stays parked: not to be blamed on later cases
		}
		loopBlocked := loop1 != "" && loop1 == loop2 && !strings.HasSuffix(loop1, "[running]") && !strings.HasSuffix(loop1, "[runnable]")
		switch {
		case r.returned():
			c.Inconclusive("Run returned while the stuck state was being classified")
		case r.steps.Load() != steps1:
			// e.g. a signal or a goroutine of the driver was held up for seconds on an overloaded machine
			c.Inconclusive("watchdog fired, but the event log moved again while the state was being classified (starvation)")
		case !loopBlocked:
			c.Inconclusive("watchdog fired, but the run loop's goroutine is not parked in a stable blocking frame")
			c.Note("unstable: %s / %s ; %s", loop1, loop2, canon)
		case has(frameSend) && (loop1 == frameLock || loop1 == frameLockOK || loop1 == frameSend):
			c20a = true
			c.Violation("stuck", fmt.Sprintf("Run does not return, state %s: a FatalError report is parked in %s holding the status reporter's mutex, the run loop's goroutine is parked in %s; history %s", state, frameSend, loop1, canon),
				w, "blocked", frameSend, "loop", loop1, "state", state)
		case loop1 == "otelcol.(*Collector).Run [select]" && has(frameSend):
			c.Inconclusive("a FatalError report is in flight while the run loop is in its select: transient")
		case loop1 == "otelcol.(*Collector).Run [select]" && r.mustReturn.Load() && r.loopIdleInDump(dump) && r.loopIdleInDump(dump2):
			c.Violation("stuck", fmt.Sprintf("Run does not return, state %s: the run loop sits idle in its select although a stop event that must be honoured was issued; history %s", state, canon),
				w, "blocked", loop1, "loop", loop1, "state", state)
		case loop1 == "otelcol.(*Collector).Run [select]" && r.loopIdleInDump(dump):
			// idle, and nothing was issued that has to end the run: the driver's poller should have seen it
			c.Inconclusive("watchdog fired while the run loop is idle and no stop is due (starved driver)")
			c.Note("idle-without-due-stop: state %s; %s; events: %s", state, canon, r.tail(6))
		default:
			top := goroutineTop(dump, r.goid.Load())
			c.Violation("stuck", fmt.Sprintf("Run does not return, state %s, no progress; the run loop's goroutine is parked in %s (innermost frame %s); other blocked repository frames: %s; history %s", state, loop1, top, strings.Join(frames, " | "), canon),
				w, "blocked", loop1, "loop", loop1, "state", state, "top", top)
		}
		c.Observe("histories_stuck", 1)
		c.Note("stuck (%s, state %s): %s -> %s", h.Class, state, canon, strings.Join(frames, " | "))
		return true, c20a
	}
	if !r.returned() {
		c.Inconclusive("history ended without Run returning")
		return false, false
	}
	r.check()
	// evidence
	r.mu.Lock()
	nEv := len(r.evs)
	var order strings.Builder
	stops, reloads := 0, 0
	cbStates := map[string]bool{}
	for _, e := range r.evs {
		switch e.Kind {
		case "create", "start-call", "shutdown-call", "retrieve", "provider-shutdown", "run-returned":
			cbStates[e.Kind+"@"+e.State] = true
			fmt.Fprintf(&order, "%s.%d.%s;", e.Kind, e.Gen, e.Name)
		case "Shutdown()", "cancel", "fire-watcherr", "fatal-report":
			stops++
			fmt.Fprintf(&order, "%s;", e.Kind)
		case "signal":
			if e.Info != "hangup" {
				stops++
			}
			fmt.Fprintf(&order, "sig.%s;", e.Info)
		case "retrieve-x":
		}
		if e.Kind == "retrieve" && e.Gen > 1 {
			reloads++
		}
	}
	var states []string
	for _, s := range r.samples {
		states = append(states, s.state.String())
	}
	problems := r.problems
	r.mu.Unlock()
	for k := range cbStates {
		c.Distinct("states_at_callbacks", k)
	}
	for _, a := range h.Final.Actions {
		c.Observe("final_stop_"+a.Kind, 1)
	}
	c.Observe("events_logged", int64(nEv))
	c.Observe("watcher_notifications_delivered_back_to_back", r.seqNotified.Load())
	c.Observe("fatal_reports_made", r.fatalPlanned.Load())
	c.Observe("fatal_events_accepted_seen_by_watcher", r.fatalAccepted.Load())
	c.Observe("idle_polls_goroutine_dumps", r.polls.Load())
	c.Observe("settle_waits", r.settles.Load())
	c.Observe("ms_waiting_for_idle_or_return", r.settleNs.Load()/1e6)
	c.Observe("ms_waiting_for_signal_dispatch", r.sigNs.Load()/1e6)
	c.Observe("reloads_observed", int64(reloads))
	c.Observe("stop_events_fired", int64(stops))
	c.Observe("state_samples", int64(len(states)))
	if reloads > 0 || stops >= 2 {
		c.Nontrivial(canon)
	}
	c.Distinct("histories", canon)
	c.Distinct("interleavings", order.String())
	c.Distinct("state_sample_sequences", strings.Join(states, ">"))
	for _, p := range problems {
		if p.sub == "harness-contract" {
			c.Inconclusive("harness broke the provider contract (notification met a closed channel)")
			c.Note("%s; history %s", p.what, canon)
			continue
		}
		c.Violation(p.sub, p.what+"; history "+canon, r.witness(""), p.sig...)
	}
	if len(problems) == 0 {
		c.Sample(map[string]any{"history": canon, "run_error": fmt.Sprint(r.runErr), "states_sampled": states, "events": nEv})
	}
	return false, false
}

func allStacks() string {
	buf := make([]byte, 1<<21)
	for {
		n := runtime.Stack(buf, true)
		if n < len(buf) {
			return string(buf[:n])
		}
		buf = make([]byte, 2*len(buf))
	}
}

// goroutineFrame returns "innermost repository function [wait reason]" of one goroutine of a dump ("" if the
// goroutine is not in the dump or has no repository frame).
func goroutineFrame(dump string, id int64) string {
	head := fmt.Sprintf("goroutine %d [", id)
	for _, g := range strings.Split(dump, "\n\n") {
		if !strings.HasPrefix(g, head) {
			continue
		}
		if f := blockedFramesOpt(g, true); len(f) > 0 {
			return f[0]
		}
		return ""
	}
	return ""
}

// goroutineTop is the innermost frame (any package) of a goroutine of a dump.
func goroutineTop(dump string, id int64) string {
	head := fmt.Sprintf("goroutine %d [", id)
	for _, g := range strings.Split(dump, "\n\n") {
		if strings.HasPrefix(g, head) {
			l := strings.Split(g, "\n")
			if len(l) > 1 {
				fn := l[1]
				if i := strings.LastIndex(fn, "("); i > 0 {
					fn = fn[:i]
				}
				return fn
			}
		}
	}
	return ""
}

func (r *run) loopIdleInDump(d string) bool {
	head := fmt.Sprintf("goroutine %d [select", r.goid.Load())
	i := strings.Index(d, head)
	if i < 0 {
		return false
	}
	rest := d[i:]
	nl := strings.IndexByte(rest, '\n')
	return nl >= 0 && strings.HasPrefix(rest[nl+1:], "go.opentelemetry.io/collector/otelcol.(*Collector).Run(")
}

func firstLine(s string) string {
	if i := strings.IndexByte(s, '\n'); i >= 0 {
		return s[:i]
	}
	return s
}

func run_(c *driver.Ctx) {
	installSignals()
	runtime.GOMAXPROCS([]int{2, 4, 8, 16}[c.Shard%4])
	limit := 20 * time.Second
	directedLimit := 8 * time.Second
	var g int64
	// C20-a present in this tree? Assumed so until a deterministic directed reproducer of this child (1: fatal
	// during shutdown, 2: fatal inside Start) says otherwise; 0 (two concurrent reports) depends on the schedule
	// and is retried. Reproducers 0..2 run on shards 0..2 (quick: race variant only); additionally every child
	// runs reproducer 2 first, to learn whether histories with extra FatalError reports may be explored.
	defect := true
	for i := 0; i < 3; i, g = i+1, g+1 {
		mine := c.Mine(g)
		if c.Only < 0 && c.Tier == "quick" && c.Variant != "race" {
			mine = false
		}
		if i == 2 && c.Only < 0 {
			mine = c.Want(g) // the deterministic probe runs first in every child (milliseconds on a repaired tree)
		}
		if !mine {
			continue
		}
		hung := false
		tries := 1
		if i == 0 {
			tries = 4
		}
		for try := 0; try < tries && !hung; try++ {
			hung, _ = runHistory(c, directed(i), directedLimit)
		}
		if i > 0 {
			defect = hung
		}
		if !hung {
			c.Observe("directed_C20a_reproducers_that_did_not_hang", 1)
		}
	}
	// back-to-back watcher notifications while the loop is busy (all ordered pairs over {change, error}, four
	// triples) x five in-reload firing points
	nStuck := 0
	nn := int64(c.N(480, 4800))
	for i := int64(0); i < nn; i, g = i+1, g+1 {
		if !c.Mine(g) {
			continue
		}
		rng := c.CaseRand(g)
		h := genDoubleNotify(rng, i, c.Variant == "race")
		h.Pollers = 2 + rng.Intn(7)
		c.Observe("double_notify_histories", 1)
		if hung, _ := runHistory(c, h, limit); hung {
			if nStuck++; nStuck > 4 {
				break
			}
		}
	}
	// many reloads in a row under concurrent logging through the provider's logger
	nm := int64(c.N(32, 480))
	for i := int64(0); i < nm; i, g = i+1, g+1 {
		if !c.Mine(g) {
			continue
		}
		h := genManyReloads(c.CaseRand(g))
		c.Observe("many_reload_histories", 1)
		if hung, _ := runHistory(c, h, limit); hung {
			nStuck++
		}
	}
	n := int64(c.N(3200, 60000))
	steered := int64(0)
	for i := int64(0); i < n; i, g = i+1, g+1 {
		if !c.Mine(g) {
			continue
		}
		rng := c.CaseRand(g)
		h := genHistory(rng)
		if i%8 == 0 {
			h.Pollers = 2 + rng.Intn(7) // every eighth random history runs under concurrent provider logging too
		}
		if h.hangProne() && c.Only < 0 && defect {
			steered++
			continue
		}
		hung, c20a := runHistory(c, h, limit)
		if c20a {
			defect = true // the defect is there after all: stop steering into it
		}
		if hung {
			if nStuck++; nStuck > 4 {
				c.Note("more than 4 stuck collectors in this child, stopping early")
				c.Inconclusive("child stopped early after several stuck collectors")
				break
			}
		}
	}
	c.Observe("histories_with_extra_fatal_reports_steered_around_known_C20a", steered)
}

func main() {
	driver.Main(driver.Spec{
		ID:    "C20",
		Level: "exploration",
		Rule: "a case is one event history driven through one otelcol.Collector (one collector at a time per child process because signals are process-wide): generation plans (1-3 receivers, 1-2 exporters, a component failing in Start or Shutdown, invalid configuration, retrieve error, actions triggered from inside Start/Shutdown of a chosen component) + 0-6 rounds fired with the run loop idle (config change, SIGHUP, both, reload together with a stop event) + a final stop (Shutdown() x1-4 goroutines, SIGINT, SIGTERM, context cancel, watcher error, FatalError status, or several together); plus a class of histories that deliver two or three watcher notifications back to back (all ordered pairs over {change, error}) from inside Start/Shutdown of a component while the loop is starting or reloading. " +
			"Non-trivial: the executed history contains a reload (a second Retrieve) or at least two stop events; distinct = canonical history",
		Assumptions: []string{
			"GetState() can only be sampled: first sample Starting, nothing but Closed after Closed, no component created/started once Closed was seen, Closed after every run that ended on a stop path",
			"back-to-back watcher notifications (class double-notify): fired by a harness goroutine from inside Start/Shutdown while the loop is busy; the callback continues only when the first sits in the resolver's one-slot channel and the sender is parked in the next send; nothing is started after a watch error could have been consumed; error-first pairs run in the plain build only (a parked send at the resolver's close(watcher) is a send/close race for the detector)",
			"the harness provider otherwise notifies at most once per Retrieved, never after Close/Shutdown and never from a foreign goroutine once a stop event was issued (confmap.Resolver closes its channel on shutdown)",
			"a stop event must be honoured when it was fired with the loop idle in Running (and no reload pending for Shutdown()), or is sticky by nature (context cancel, a watcher error already handed to the resolver, a termination signal once the collector's handlers are registered and at most 3 signals are pending, an accepted FatalError event); a Shutdown() issued before Run, while starting or while reloading only has to be safe; the history always ends with a final stop at idle",
			"bring-up failure paths (failed Start, invalid configuration, retrieve error) and a failing Shutdown of the retiring service: only 'Run returns the error, everything started is shut down' is demanded; final state and provider shutdown are demanded on stop paths only",
		},
		TrustedBase: []string{"runtime.Stack goroutine dumps to recognise the idle run loop and blocked frames", "os/signal dispatch (own registration + handler-table lock barrier)", "Go race detector"},
		Shards:      func(tier string) int { return 16 },
		Variants:    func(tier string) []string { return []string{"race", "plain"} },
		MinNontrivial: func(tier string) int {
			if tier == "thorough" {
				return 5000
			}
			return 300
		},
		ShardTimeout: func(tier string) time.Duration {
			if tier == "thorough" {
				return 45 * time.Minute
			}
			return 12 * time.Minute
		},
		Run:        run_,
		MaxSamples: 2,
	})
}
