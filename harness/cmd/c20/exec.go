package main

import (
	"bytes"
	"context"
	"errors"
	"fmt"
	"os"
	"os/signal"
	"runtime"
	"strconv"
	"strings"
	"sync"
	"sync/atomic"
	"syscall"
	"time"

	"go.uber.org/zap"

	"go.opentelemetry.io/collector/component"
	"go.opentelemetry.io/collector/component/componentstatus"
	"go.opentelemetry.io/collector/confmap"
	"go.opentelemetry.io/collector/otelcol"
	"go.opentelemetry.io/collector/verifharness/lib/driver"
)

// run is one collector lifetime driven through one history.
type run struct {
	c    *driver.Ctx
	h    *History
	col  *otelcol.Collector
	prov *prov

	ctx    context.Context
	cancel context.CancelFunc
	done   chan struct{}
	runErr error
	goid   atomic.Int64 // goroutine id of the goroutine that executes Run

	mu       sync.Mutex
	seq      int64
	evs      []event
	live     []*comp
	fired    map[string]bool // triggers that fired
	problems []problem
	samples  []sample

	steps      atomic.Int64
	stopIssued atomic.Bool // some stop event has been issued (sticky)
	mustReturn atomic.Bool // a stop event that must be honoured has been issued: Run has to return without further help
	// FatalError reports: planned (goroutines/sync calls scheduled), back (ReportStatus returned), accepted
	// (a FatalError event reached the watcher extension, i.e. the report was a legal transition: only then
	// does it have to stop the collector; its hand-over to the loop may be asynchronous, so "idle" proves
	// nothing once one was accepted)
	fatalPlanned  atomic.Int64
	fatalAccepted atomic.Int64
	sigPending    atomic.Int64
	seenIdle      atomic.Bool // the loop was seen idle at least once: the collector's signal handlers are registered
	abandon       atomic.Bool
	closedSeen    atomic.Int64 // seq at which Closed was first sampled, 0 = never
	reporters     sync.WaitGroup
	fatalBack     atomic.Int64
	dumpBuf       []byte
	seqPending    atomic.Int64 // back-to-back watcher notifications not yet delivered (send not yet returned)
	seqNotified   atomic.Int64
	settleNs      atomic.Int64 // observation only
	settles       atomic.Int64
	polls         atomic.Int64
	sigNs         atomic.Int64
}

type sample struct {
	seq   int64
	state otelcol.State
}

type problem struct {
	sub  string
	what string
	sig  []string
}

func (r *run) problem(sub, what string, sig ...string) {
	r.mu.Lock()
	r.problems = append(r.problems, problem{sub, what, sig})
	r.mu.Unlock()
}

func (r *run) log(e event) {
	st := r.col.GetState()
	r.mu.Lock()
	r.seq++
	e.Seq = r.seq
	e.State = st.String()
	e.ProvDown = -1
	r.evs = append(r.evs, e)
	seq := r.seq
	r.mu.Unlock()
	if st == otelcol.StateClosed {
		r.closedSeen.CompareAndSwap(0, seq)
	}
	r.steps.Add(1)
	r.c.Progress()
}

func (r *run) addLive(c *comp) {
	r.mu.Lock()
	r.live = append(r.live, c)
	r.mu.Unlock()
}

func (r *run) progress() int64 { return r.steps.Load() }

func goroutineID() int64 {
	var b [64]byte
	n := runtime.Stack(b[:], false)
	f := bytes.Fields(b[:n])
	if len(f) >= 2 {
		id, _ := strconv.ParseInt(string(f[1]), 10, 64)
		return id
	}
	return -1
}

func (r *run) onLoopGoroutine() bool { return goroutineID() == r.goid.Load() }

// trigger fires the planned actions of (generation, phase, component) from inside the callback.
func (r *run) trigger(phase string, c *comp) {
	if r.abandon.Load() {
		return
	}
	pl := r.h.plan(c.gen)
	for i, t := range pl.Triggers {
		if t.Phase != phase || t.Comp != c.name {
			continue
		}
		key := fmt.Sprintf("%d/%d", c.gen, i)
		r.mu.Lock()
		dup := r.fired[key]
		r.fired[key] = true
		r.mu.Unlock()
		if dup {
			continue
		}
		r.log(event{Kind: "trigger", Gen: c.gen, Name: c.name, Info: phase + ":" + Round{t.Actions}.String()})
		for _, a := range t.Actions {
			r.do(a, "in-"+phase, c)
		}
	}
}

// sendSignal sends a real signal to this process and returns once the runtime has dispatched it to every
// registered channel (ours has received it, and a lock barrier on os/signal's handler table has passed).
func (r *run) sendSignal(sig syscall.Signal) {
	// one signal in flight at a time: pending standard signals of the same number coalesce, and a wait
	// satisfied by somebody else's delivery would let ours arrive later, at a point nobody planned
	sigMu.Lock()
	defer sigMu.Unlock()
	n0 := sigCount[sig].Load()
	t0 := time.Now()
	defer func() { r.sigNs.Add(int64(time.Since(t0))) }()
	r.log(event{Kind: "signal", Info: sig.String()})
	if err := syscall.Kill(os.Getpid(), sig); err != nil {
		r.problem("harness", "kill failed: "+err.Error())
		return
	}
	for i := 0; sigCount[sig].Load() == n0; i++ {
		if r.abandon.Load() {
			return
		}
		pause(i)
	}
	signal.Stop(sigDummy) // takes and releases the handlers lock: the dispatch pass that served us is over
}

var sigMu sync.Mutex

func pause(i int) {
	if i < 200 {
		runtime.Gosched()
		return
	}
	d := time.Duration(i-199) * 20 * time.Microsecond
	if d > 2*time.Millisecond {
		d = 2 * time.Millisecond
	}
	time.Sleep(d)
}

func (r *run) callShutdown(where string) {
	st := r.col.GetState()
	r.log(event{Kind: "Shutdown()", Info: where})
	if pv, stack := driver.Catch(func() { r.col.Shutdown() }); pv != nil {
		r.problem("shutdown-panic", fmt.Sprintf("Collector.Shutdown() panicked (%v) when called %s in state %s", pv, where, st),
			"where", where, "site", driver.PanicSite(stack))
	}
}

// reporterHosts returns up to n live pipeline components of the newest generation that can report status.
func (r *run) reporterHosts(n int, prefer *comp) []*comp {
	r.mu.Lock()
	defer r.mu.Unlock()
	var out []*comp
	maxGen := 0
	for _, c := range r.live {
		if c.gen > maxGen {
			maxGen = c.gen
		}
	}
	add := func(c *comp) {
		if len(out) >= n || c.gen != maxGen {
			return
		}
		for _, x := range out {
			if x == c {
				return
			}
		}
		h, ok := c.live()
		if !ok || h == nil {
			return
		}
		if _, isRep := h.(componentstatus.Reporter); !isRep {
			return
		}
		out = append(out, c)
	}
	if prefer != nil {
		add(prefer)
	}
	for _, c := range r.live {
		add(c)
	}
	return out
}

// do performs one action. where: idle | in-start | in-shutdown | pre-run.
func (r *run) do(a Action, where string, from *comp) (delivered bool) {
	inCallback := from != nil
	delivered = true
	switch a.Kind {
	case "shutdown":
		n := a.N
		if n < 1 {
			n = 1
		}
		// Only a Shutdown() fired with the loop idle in Running (and no reload pending) has to stop the run
		// (fireRound marks that case); one issued while the collector is starting or reloading merely has to
		// be safe — the statement does not promise that it wins.
		r.stopIssued.Store(true)
		if inCallback && where == "in-start" {
			// ... with one exception that is unambiguous: while a component's Start runs, the collector is in Starting
			// (first start and reload alike), and a Shutdown() in Starting is accepted — whatever happens to the rest
			// of the start-up, Run has to return
			r.mustReturn.Store(true)
		}
		if inCallback || n == 1 {
			for i := 0; i < n; i++ {
				r.callShutdown(where)
			}
			return true
		}
		var wg sync.WaitGroup
		gate := make(chan struct{})
		for i := 0; i < n; i++ {
			wg.Add(1)
			go func() { defer wg.Done(); <-gate; r.callShutdown(where) }()
		}
		close(gate)
		wg.Wait()
	case "sigterm", "sigint", "sighup":
		sig := map[string]syscall.Signal{"sigterm": syscall.SIGTERM, "sigint": syscall.SIGINT, "sighup": syscall.SIGHUP}[a.Kind]
		registered := r.seenIdle.Load() // Run registers its handlers before it first waits
		if a.Kind != "sighup" {
			r.stopIssued.Store(true)
		}
		pend := r.sigPending.Add(1)
		r.sendSignal(sig)
		if a.Kind != "sighup" && registered && pend <= 3 {
			r.mustReturn.Store(true)
		}
	case "cancel":
		r.stopIssued.Store(true)
		r.mustReturn.Store(true)
		r.log(event{Kind: "cancel", Info: where})
		r.cancel()
	case "watch", "watcherr":
		var err error
		if a.Kind == "watcherr" {
			err = errors.New("injected watch error")
		}
		onLoop := inCallback && r.onLoopGoroutine()
		if r.prov.fire(err, onLoop) {
			r.log(event{Kind: "fire-" + a.Kind, Info: where})
			if err != nil {
				r.stopIssued.Store(true)
				r.mustReturn.Store(true)
			}
		} else {
			r.log(event{Kind: "fire-skipped", Info: where + " " + a.Kind})
			return false
		}
	case "wseq":
		w := r.prov.seqStart()
		if w == nil || !inCallback {
			r.log(event{Kind: "wseq-skipped", Info: where + " " + a.String()})
			return false
		}
		r.log(event{Kind: "wseq", Gen: from.gen, Name: from.name, Info: where + " " + a.String()})
		base := r.seqPending.Load()
		r.seqPending.Add(int64(len(a.Seq)))
		var senderID atomic.Int64
		go func() {
			senderID.Store(goroutineID())
			for i, k := range a.Seq {
				var err error
				if k == "error" {
					err = errors.New("injected watch error")
				}
				r.prov.logf("harness provider notifies back to back", zap.Int("i", i), zap.String("kind", k))
				pv, _ := driver.Catch(func() { w(&confmap.ChangeEvent{Error: err}) })
				if pv != nil {
					// the channel was closed under a pending notification: outside the provider contract, our fault
					r.problem("harness-contract", fmt.Sprintf("watcher notification %d of %s met a closed channel: %v", i, a.String(), pv))
				}
				r.seqNotified.Add(1)
				r.log(event{Kind: "notify-delivered", Info: k})
				if k == "error" && pv == nil {
					r.stopIssued.Store(true)
					r.mustReturn.Store(true)
				}
				r.seqPending.Add(-1)
			}
		}()
		// The callback (the run loop's goroutine) goes on only when the first notification sits in the (empty)
		// channel and the sender is parked in the send of the next one — or everything has been delivered. So
		// two notifications are pending while the loop is busy, and none is ever started after the loop may
		// have consumed a watch error.
		for i := 0; r.seqPending.Load() > base; i++ {
			if r.abandon.Load() {
				break
			}
			if id := senderID.Load(); id > 0 && r.seqNotified.Load() > 0 && parkedInSend(id) {
				break
			}
			pause(i)
		}
		return true
	case "fatal":
		n := a.N
		if n < 1 {
			n = 1
		}
		hosts := r.reporterHosts(n, from)
		if len(hosts) == 0 {
			r.log(event{Kind: "fatal-skipped", Info: where})
			return false
		}
		r.stopIssued.Store(true)
		r.fatalPlanned.Add(int64(len(hosts)))
		target := r.fatalPlanned.Load()
		gate := make(chan struct{})
		for _, c := range hosts {
			c := c
			h, _ := c.live()
			rep := func() {
				r.log(event{Kind: "fatal-report", Gen: c.gen, Name: c.name, Info: where})
				if r.fatalPlanned.Load()%3 == 2 {
					// a fatal status without an error value is a fatal status all the same
					componentstatus.ReportStatus(h, componentstatus.NewEvent(componentstatus.StatusFatalError))
				} else {
					componentstatus.ReportStatus(h, componentstatus.NewFatalErrorEvent(fmt.Errorf("injected fatal error gen %d %s", c.gen, c.name)))
				}
				r.fatalBack.Add(1)
				r.log(event{Kind: "fatal-report-returned", Gen: c.gen, Name: c.name})
			}
			if inCallback && a.Sync {
				rep()
				continue
			}
			r.reporters.Add(1)
			go func() { defer r.reporters.Done(); <-gate; rep() }()
		}
		close(gate)
		if inCallback && !a.Sync {
			// the callback goes on only when each report has returned or is parked inside the collector
			for i := 0; r.fatalBack.Load() < target; i++ {
				if r.abandon.Load() || r.blockedInAsyncSend() {
					break
				}
				pause(i)
			}
		}
	}
	return delivered
}

// dump takes a goroutine dump (all goroutines).
func (r *run) dump() string {
	if r.dumpBuf == nil {
		r.dumpBuf = make([]byte, 1<<20)
	}
	for {
		n := runtime.Stack(r.dumpBuf, true)
		if n < len(r.dumpBuf) {
			return string(r.dumpBuf[:n])
		}
		r.dumpBuf = make([]byte, 2*len(r.dumpBuf))
	}
}

// parkedInSend: the goroutine sits in a channel send inside confmap.(*Resolver).onChange.
func parkedInSend(id int64) bool {
	buf := make([]byte, 1<<20)
	n := runtime.Stack(buf, true)
	head := fmt.Sprintf("goroutine %d [chan send", id)
	for _, g := range strings.Split(string(buf[:n]), "\n\n") {
		if strings.HasPrefix(g, head) && strings.Contains(g, "confmap.(*Resolver).onChange") {
			return true
		}
	}
	return false
}

func (r *run) blockedInAsyncSend() bool {
	buf := make([]byte, 1<<20)
	n := runtime.Stack(buf, true)
	for _, g := range strings.Split(string(buf[:n]), "\n\n") {
		if strings.Contains(g, "[chan send") && strings.Contains(g, "NotifyComponentStatusChange") {
			return true
		}
	}
	return false
}

// loopIdle: the goroutine that executes Run is parked in the select of Run itself (innermost frame).
func (r *run) loopIdle() bool {
	id := r.goid.Load()
	if id <= 0 {
		return false
	}
	d := r.dump()
	head := fmt.Sprintf("goroutine %d [", id)
	i := strings.Index(d, head)
	if i < 0 || (i > 0 && d[i-1] != '\n') {
		return false
	}
	rest := d[i+len(head):]
	if !strings.HasPrefix(rest, "select") {
		return false
	}
	nl := strings.IndexByte(rest, '\n')
	if nl < 0 {
		return false
	}
	return strings.HasPrefix(rest[nl+1:], "go.opentelemetry.io/collector/otelcol.(*Collector).Run(")
}

func (r *run) returned() bool {
	select {
	case <-r.done:
		return true
	default:
		return false
	}
}

// settle waits until Run has returned ("returned") or the loop is idle ("idle"). After a fatal report was
// issued only "returned" counts (the hand-over to the loop may be asynchronous).
func (r *run) settle() string {
	t0 := time.Now()
	defer func() { r.settleNs.Add(int64(time.Since(t0))); r.settles.Add(1) }()
	lastSteps := int64(-1)
	for i := 0; ; i++ {
		if r.returned() {
			return "returned"
		}
		if r.abandon.Load() {
			return "abandoned"
		}
		// a goroutine dump stops the world: only look when the event log has been quiet for one poll interval
		steps := r.steps.Load()
		quiet := steps == lastSteps
		lastSteps = steps
		if quiet {
			r.polls.Add(1)
		}
		// the dump is the snapshot; the flags are read after it (whatever they say then held at the snapshot
		// too, because they only ever move one way while nothing is fired), and the log must not have moved
		idle := quiet && r.loopIdle()
		fatalSettled := r.fatalAccepted.Load() == 0 && r.fatalBack.Load() == r.fatalPlanned.Load() && r.seqPending.Load() == 0
		if idle && fatalSettled && r.steps.Load() == steps {
			r.seenIdle.Store(true)
			r.sigPending.Store(0)
			r.prov.sawIdle()
			if !r.mustReturn.Load() {
				// nothing is pending at idle: whatever stop was issued before was lost or a legal no-op
				r.stopIssued.Store(false)
			}
			return "idle"
		}
		switch {
		case i < 100:
			time.Sleep(50 * time.Microsecond)
		case i < 400:
			time.Sleep(250 * time.Microsecond)
		default:
			time.Sleep(2 * time.Millisecond)
		}
	}
}

func (r *run) fireRound(rd Round) (delivered int, reloadDelivered bool) {
	r.log(event{Kind: "round", Info: rd.String()})
	var dmu sync.Mutex
	note := func(a Action, ok bool) {
		if !ok {
			return
		}
		dmu.Lock()
		delivered++
		if a.isReload() {
			reloadDelivered = true
		}
		dmu.Unlock()
	}
	hasReload := false
	for _, a := range rd.Actions {
		if a.isReload() {
			hasReload = true
		}
	}
	gen0 := r.prov.generation()
	// a watcher notification goes first and synchronously (see prov.fire), the rest concurrently
	var rest []Action
	for _, a := range rd.Actions {
		if a.Kind == "watch" || a.Kind == "watcherr" {
			note(a, r.do(a, "idle", nil))
		} else {
			rest = append(rest, a)
		}
	}
	var wg sync.WaitGroup
	gate := make(chan struct{})
	for _, a := range rest {
		a := a
		if a.Kind == "shutdown" && !hasReload {
			// fired at idle in Running with no reload pending: it must close the channel
			r.mustReturn.Store(true)
		}
		wg.Add(1)
		go func() { defer wg.Done(); <-gate; note(a, r.do(a, "idle", nil)) }()
	}
	close(gate)
	wg.Wait()
	_ = gen0
	return delivered, reloadDelivered
}

// execute drives the history. It runs under c.Guard.
func (r *run) execute() {
	h := r.h
	r.mu.Lock()
	r.samples = append(r.samples, sample{0, r.col.GetState()}) // the first sample: before anything is done to the collector
	r.mu.Unlock()
	for i := 0; i < h.PreShutdown; i++ {
		r.stopIssued.Store(true)
		r.callShutdown("pre-run") // before Run: has to be safe; whether it already ends the coming run is not promised
	}
	go func() {
		r.goid.Store(goroutineID())
		err := r.col.Run(r.ctx)
		r.runErr = err
		r.log(event{Kind: "run-returned", Info: fmt.Sprint(err)})
		close(r.done)
	}()
	// state sampler
	stopSampler := make(chan struct{})
	var swg sync.WaitGroup
	swg.Add(1)
	go func() {
		defer swg.Done()
		last := otelcol.State(-1)
		for i := 0; ; i++ {
			select {
			case <-stopSampler:
				return
			default:
			}
			if s := r.col.GetState(); s != last {
				r.mu.Lock()
				r.samples = append(r.samples, sample{r.seq, s})
				seq := r.seq
				r.mu.Unlock()
				if s == otelcol.StateClosed {
					r.closedSeen.CompareAndSwap(0, seq)
				}
				last = s
			}
			if i%8 == 7 {
				time.Sleep(20 * time.Microsecond)
			} else {
				runtime.Gosched()
			}
		}
	}()
	defer func() { close(stopSampler); swg.Wait() }()

	st := r.settle()
	rounds := append(append([]Round{}, h.Rounds...), h.Final)
	for ri, rd := range rounds {
		if st != "idle" {
			break
		}
		if r.mustReturn.Load() {
			r.problem("stop-ignored", fmt.Sprintf("a stop event that has to be honoured was issued, yet the run loop is idle again and Run has not returned (state %s); events: %s", r.col.GetState(), r.tail(14)),
				"state", r.col.GetState().String(), "stop", r.stopKinds())
			break
		}
		gen0 := r.prov.generation()
		nDelivered, reloadDelivered := r.fireRound(rd)
		if ri == len(rounds)-1 && nDelivered == 0 {
			// nothing of the final stop could be delivered (e.g. the provider had already notified): plain Shutdown()
			r.log(event{Kind: "fallback-final-stop"})
			r.mustReturn.Store(true)
			r.stopIssued.Store(true)
			r.callShutdown("idle")
		}
		st = r.settle()
		if st == "idle" && !r.mustReturn.Load() && roundIsPureReload(rd) && reloadDelivered && r.prov.generation() == gen0 {
			r.problem("reload-ignored", fmt.Sprintf("round %q was fired with the loop idle in Running; the loop is idle again and the configuration was not retrieved again; events: %s", rd.String(), r.tail(10)),
				"round", rd.String())
		}
		if ri == len(rounds)-1 && st == "idle" {
			r.problem("stop-ignored", fmt.Sprintf("final stop %q was fired with the loop idle in Running; the loop is idle again and Run has not returned (state %s); events: %s", rd.String(), r.col.GetState(), r.tail(10)),
				"state", r.col.GetState().String(), "stop", rd.String())
		}
	}
	if st == "idle" {
		// let the collector go (already reported above)
		r.cancel()
		r.col.Shutdown()
		st = r.settle()
	}
	if st == "returned" {
		r.reporters.Wait()
		// idempotence after the end
		before := r.col.GetState()
		r.callShutdown("after-run")
		r.callShutdown("after-run")
		if after := r.col.GetState(); after != before {
			r.problem("state", fmt.Sprintf("Shutdown() after Run returned changed the state %s -> %s", before, after), "rule", "changed-after-return")
		}
	}
}

func roundIsPureReload(rd Round) bool {
	if len(rd.Actions) == 0 {
		return false
	}
	for _, a := range rd.Actions {
		if !a.isReload() {
			return false
		}
	}
	return true
}

func (r *run) stopKinds() string {
	r.mu.Lock()
	defer r.mu.Unlock()
	set := map[string]bool{}
	var out []string
	for _, e := range r.evs {
		k := ""
		switch e.Kind {
		case "Shutdown()", "cancel", "fire-watcherr":
			k = e.Kind
		case "notify-delivered":
			if e.Info == "error" {
				k = "watcherr-behind-pending-notification"
			}
		case "signal":
			if e.Info != syscall.SIGHUP.String() {
				k = "signal"
			}
		}
		if k != "" && !set[k] {
			set[k] = true
			out = append(out, k)
		}
	}
	return strings.Join(out, "+")
}

func (r *run) tail(n int) string {
	r.mu.Lock()
	defer r.mu.Unlock()
	evs := r.evs
	if len(evs) > n {
		evs = evs[len(evs)-n:]
	}
	p := make([]string, len(evs))
	for i, e := range evs {
		p[i] = e.String()
	}
	return strings.Join(p, "; ")
}

func newRun(c *driver.Ctx, h *History) (*run, error) {
	r := &run{c: c, h: h, done: make(chan struct{}), fired: map[string]bool{}}
	r.prov = &prov{r: r}
	r.ctx, r.cancel = context.WithCancel(context.Background())
	col, err := otelcol.NewCollector(otelcol.CollectorSettings{
		Factories:             r.factories,
		BuildInfo:             component.NewDefaultBuildInfo(),
		SkipSettingGRPCLogger: true,
		ConfigProviderSettings: otelcol.ConfigProviderSettings{ResolverSettings: confmap.ResolverSettings{
			URIs: []string{"vv:x"},
			ProviderFactories: []confmap.ProviderFactory{confmap.NewProviderFactory(func(ps confmap.ProviderSettings) confmap.Provider {
				r.prov.logger = ps.Logger
				return r.prov
			})},
			ConverterFactories: []confmap.ConverterFactory{confmap.NewConverterFactory(func(cs confmap.ConverterSettings) confmap.Converter {
				return conv{r, cs.Logger}
			})},
		}},
	})
	if err != nil {
		return nil, err
	}
	r.col = col
	return r, nil
}
