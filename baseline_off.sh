#!/bin/bash
# Runs the repository's pinned baseline exactly as /root/.vp/BASELINE.json does, with the guard off
# (no -tags verif; the harness lives outside /repo, so nothing of it is compiled into these packages).
# Prints the number of passed / failed tests and lists baseline tests that did not pass.
set -u
cd "$(dirname "$0")"
VERIF=$PWD
REPO=${VERIF_REPO:-/repo}
export GOPROXY=off GOSUMDB=off GOTOOLCHAIN=local
OUT=$(mktemp -d)
trap 'rm -rf "$OUT"' EXIT
gomodflag() { local gw; gw=$(go env GOWORK 2>/dev/null); if [ -z "$gw" ] || [ "$gw" = off ]; then echo "-mod=mod"; fi; }
for m in $(cat tools/gomods.txt); do
  MF=$(cd "$REPO/$m" && gomodflag)
  (cd "$REPO/$m" && go test $MF -json -vet=off -count=1 -timeout 25m ./...) >> "$OUT/run.json" 2>>"$OUT/err.txt"
done
python3 - "$OUT/run.json" <<'PY'
import json, sys
passed, failed = set(), set()
for line in open(sys.argv[1], errors="replace"):
    line = line.strip()
    if not line.startswith("{"): continue
    try: ev = json.loads(line)
    except Exception: continue
    a, pkg, t = ev.get("Action"), ev.get("Package", ""), ev.get("Test")
    if t is None or a not in ("pass", "fail"): continue
    (passed if a == "pass" else failed).add(pkg + "::" + t)
passed -= failed
base = set(json.load(open("/root/.vp/BASELINE.json"))["stable_pass"]) if __import__("os").path.exists("/root/.vp/BASELINE.json") else set()
missing = sorted(base - passed)
print("passed=%d failed=%d baseline=%d baseline_not_passed=%d" % (len(passed), len(failed), len(base), len(missing)))
for m in missing[:50]: print("  NOT PASSED:", m)
for m in sorted(failed)[:50]: print("  FAILED:", m)
sys.exit(1 if missing or failed else 0)
PY
